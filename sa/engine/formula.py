"""Boolean formulas over canonical atoms; truth-table implication/equivalence.

A guard expression is turned into a formula whose atoms are canonical strings:
comparisons are normalised (`a > b` = `b < a`, `a >= b` = !(a < b), `x <= 5` = `x < 6`,
`x != 0` = `x`), commutative operands are sorted, logging/asserting wrappers are dropped.
Equivalence is decided by enumerating the truth table over the union of atoms (no solver).
"""
import itertools
import re

from .ir import is_expr, show

T = ("T",)
Fa = ("F",)

COMM = {"+", "*", "&", "|", "^", "==", "!="}


_WIDTH_SENSITIVE = {"*", "+", "-", "<<", "*=", "+=", "-=", "<<="}


def canon(e, _arith_operand=False):
    """Sort operands of commutative built-in operators (recursively)."""
    if not is_expr(e):
        return e
    arith = e[0] == "b" and len(e) >= 4 and e[1] in _WIDTH_SENSITIVE
    out = [e[0]] + [canon(x, arith and i in (1, 2)) if is_expr(x) else x for i, x in enumerate(e[1:])]
    if out[0] == "b" and out[1] in COMM and len(out) >= 4:
        a, b = out[2], out[3]
        if show(a) > show(b):
            out[2], out[3] = b, a
    if out[0] == "ctor" and len(out) == 3 and isinstance(out[1], str) and out[1].endswith("iterator") and is_expr(out[2]):
        return out[2]  # iterator -> const_iterator conversions are transparent
    if out[0] == "cast" and len(out) >= 5 and _value_preserving_cast(out[3], out[4]) and not _arith_operand:
        # widening integral casts of the same signedness are transparent for comparison - but not as the direct operand of
        # * + - <<, where the cast decides the width the arithmetic is done in (`uint64_t(a) * b` is not `a * b`)
        return out[2]
    return out


_INT_TYPES = {"bool": (1, False), "char": (8, True), "signed char": (8, True), "unsigned char": (8, False), "short": (16, True),
              "unsigned short": (16, False), "int": (32, True), "unsigned int": (32, False), "long": (64, True), "unsigned long": (64, False),
              "long long": (64, True), "unsigned long long": (64, False)}


def _value_preserving_cast(src, dst):
    """Integral conversion that cannot change the value: same signedness and not narrowing, or unsigned to a wider signed type."""
    a, b = _INT_TYPES.get((src or "").replace("const ", "").strip()), _INT_TYPES.get((dst or "").replace("const ", "").strip())
    if a is None or b is None:
        return False
    (wa, sa), (wb, sb) = a, b
    if sa == sb:
        return wb >= wa
    return (not sa) and sb and wb > wa


def key(e):
    return show(canon(e))


def _int(e):
    if is_expr(e) and e[0] == "int":
        try:
            return int(e[1])
        except (TypeError, ValueError):
            return None
    return None


def mk_not(f):
    if f == T:
        return Fa
    if f == Fa:
        return T
    if f[0] == "not":
        return f[1]
    return ("not", f)


def _dedupe(xs):
    out = []
    for x in xs:
        if x not in out:
            out.append(x)
    return out


def mk_and(fs):
    out = []
    for f in fs:
        if f == T:
            continue
        if f == Fa:
            return Fa
        if f[0] == "and":
            out.extend(f[1])
        else:
            out.append(f)
    out = _dedupe(out)
    for f in out:
        if mk_not(f) in out:
            return Fa
    if not out:
        return T
    if len(out) == 1:
        return out[0]
    return ("and", out)


def mk_or(fs):
    out = []
    for f in fs:
        if f == Fa:
            continue
        if f == T:
            return T
        if f[0] == "or":
            out.extend(f[1])
        else:
            out.append(f)
    out = _dedupe(out)
    for f in out:
        if mk_not(f) in out:
            return T
    if not out:
        return Fa
    if len(out) == 1:
        return out[0]
    return ("or", out)


def atom(k):
    return ("atom", k)


TRUTHY_WRAPPERS = ("std::optional::has_value", "std::unique_ptr::operator bool", "std::shared_ptr::operator bool",
                   "std::__shared_ptr::operator bool", "std::optional::operator bool", "std::function::operator bool")


def _empty_atom(x, subst=None):
    """For `obj.size()` returns the atom of `obj.empty()` (so that size()==0, size()<1, !size() and empty() coincide)."""
    if is_expr(x) and x[0] in ("mcall", "vcall") and len(x) == 3 and isinstance(x[1], str) and x[1].endswith("::size"):
        return atom(key(expand(["mcall", x[1][:-4] + "empty", x[2]], subst)))
    return None


def _stale(e, subst):
    """A local/parameter whose value at the time the condition was evaluated has since been overwritten
    (subst["@stale"] = {name: tag}) is a different variable from the current one: rename it."""
    st = subst.get("@stale") if subst else None
    if st and e[0] in ("local", "param") and len(e) > 1 and e[1] in st:
        return [e[0], "%s#%s" % (e[1], st[e[1]])]
    return None


def to_formula(e, subst=None):
    """expr -> formula. `subst` maps local names to their defining expression."""
    if not is_expr(e):
        return atom(str(e))
    t = e[0]
    se = _stale(e, subst)
    if se is not None:
        return atom(key(se))
    ea = _empty_atom(e, subst)
    if ea is not None:
        return mk_not(ea)
    if t == "bool":
        return T if e[1] else Fa
    if t == "int":
        v = _int(e)
        return Fa if v == 0 else T
    if t in ("asserted",):
        return to_formula(e[1], subst)
    if t == "defarg":
        return to_formula(e[1], subst)
    if t == "cast" and e[1] in ("bool",):
        return to_formula(e[2], subst)
    if t == "local" and subst and e[1] in subst and is_expr(subst[e[1]]):
        return to_formula(subst[e[1]], subst)
    if t == "u" and e[1] == "!":
        return mk_not(to_formula(e[2], subst))
    if t in ("mcall", "vcall") and (e[1].endswith("::operator bool") or e[1] in TRUTHY_WRAPPERS):
        return to_formula(e[2], subst)
    if t == "b":
        op, l, r = e[1], e[2], e[3]
        if op == "&&":
            return mk_and([to_formula(l, subst), to_formula(r, subst)])
        if op == "||":
            return mk_or([to_formula(l, subst), to_formula(r, subst)])
        if op in ("<", ">", "<=", ">="):
            l2, r2 = expand(l, subst), expand(r, subst)
            if op == ">":
                return _lt(r2, l2)
            if op == "<":
                return _lt(l2, r2)
            if op == "<=":
                return mk_not(_lt(r2, l2))
            return mk_not(_lt(l2, r2))
        if op in ("==", "!="):
            l2, r2 = expand(l, subst), expand(r, subst)
            f = _eq(l2, r2)
            return f if op == "==" else mk_not(f)
    if t == "?:":
        c = to_formula(e[1], subst)
        return mk_or([mk_and([c, to_formula(e[2], subst)]), mk_and([mk_not(c), to_formula(e[3], subst)])])
    return atom(key(expand(e, subst)))


def expand(e, subst):
    """Substitute single-definition locals inside a term."""
    if not subst or not is_expr(e):
        return e
    se = _stale(e, subst)
    if se is not None:
        return se
    idx = subst.get("@idx")
    if idx and e[0] == "idx" and len(e) >= 3 and is_expr(e[2]) and e[2][0] == "local" and e[2][1] in idx and key(e[1]) == key(idx[e[2][1]]) \
            and e[2][1] not in (subst.get("@stale") or ()):
        return ["each", expand(e[1], subst)]     # element of an index loop over the whole range == range-for element
    if e[0] == "local" and e[1] in subst:
        return expand(subst[e[1]], {k: v for k, v in subst.items() if k != e[1]})
    return [e[0]] + [expand(x, subst) if is_expr(x) else x for x in e[1:]]


def _lt(a, b):
    """formula for a < b with integer-constant normalisation to `x < K`."""
    ka, kb = _int(a), _int(b)
    if ka is not None and kb is not None:
        return T if ka < kb else Fa
    if kb == 1 and _empty_atom(a) is not None:        # size() < 1  ==  empty()
        return _empty_atom(a)
    if ka == 0 and _empty_atom(b) is not None:        # 0 < size()  ==  !empty()
        return mk_not(_empty_atom(b))
    if kb is not None:
        return atom("%s < %d" % (key(a), kb))
    if ka is not None:                       # K < x  ==  !(x < K+1)
        return mk_not(atom("%s < %d" % (key(b), ka + 1)))
    return atom("%s < %s" % (key(a), key(b)))


def _const_val(e):
    if is_expr(e) and e[0] in ("int", "enum"):
        try:
            return int(e[1] if e[0] == "int" else e[2])
        except (TypeError, ValueError, IndexError):
            return None
    return None


def _eq(a, b):
    # comparisons distribute over a conditional term: (c ? x : y) == k
    for x, y in ((a, b), (b, a)):
        if is_expr(x) and x[0] == "?:":
            c = to_formula(x[1])
            return mk_or([mk_and([c, _eq(x[2], y)]), mk_and([mk_not(c), _eq(x[3], y)])])
    va, vb = _const_val(a), _const_val(b)
    if va is not None and vb is not None:
        return T if va == vb else Fa
    for x, y in ((a, b), (b, a)):
        if is_expr(y) and y[0] == "bool":
            f = to_formula(x)
            return f if y[1] else mk_not(f)
        if is_expr(y) and (y[0] == "null" or (y[0] == "int" and _int(y) == 0) or
                           (y[0] == "ctor" and len(y) == 3 and is_expr(y[2]) and y[2][0] == "int" and _int(y[2]) == 0)):
            return mk_not(to_formula(x))   # comparison with 0 / nullptr / T{0}
    ka, kb = key(a), key(b)
    ca = is_expr(a) and a[0] in ("int", "enum")
    cb = is_expr(b) and b[0] in ("int", "enum")
    if (ca and not cb) or (ca == cb and ka > kb):
        ka, kb = kb, ka
    return atom("%s == %s" % (ka, kb))


def atoms(f, acc=None):
    if acc is None:
        acc = []
    if f[0] == "atom":
        if f[1] not in acc:
            acc.append(f[1])
    elif f[0] == "not":
        atoms(f[1], acc)
    elif f[0] in ("and", "or"):
        for x in f[1]:
            atoms(x, acc)
    return acc


def ev(f, env):
    t = f[0]
    if t == "T":
        return True
    if t == "F":
        return False
    if t == "atom":
        return env[f[1]]
    if t == "not":
        return not ev(f[1], env)
    if t == "and":
        return all(ev(x, env) for x in f[1])
    if t == "or":
        return any(ev(x, env) for x in f[1])
    raise ValueError(f)


def rename(f, mapping):
    """mapping: atom key -> (new key, polarity)."""
    t = f[0]
    if t == "atom":
        if f[1] in mapping:
            k, pol = mapping[f[1]]
            return atom(k) if pol else mk_not(atom(k))
        return f
    if t == "not":
        return mk_not(rename(f[1], mapping))
    if t in ("and", "or"):
        return (t, [rename(x, mapping) for x in f[1]])
    return f


MAX_ATOMS = 22


def _slice(premise, conclusion):
    """Cone of influence: keep only the top-level conjuncts of premise that share atoms
    (transitively) with the conclusion; dropping the others weakens the premise (sound)."""
    if premise[0] != "and":
        return premise
    want = set(atoms(conclusion))
    parts = [(p, set(atoms(p))) for p in premise[1]]
    keep = []
    changed = True
    while changed:
        changed = False
        rest = []
        for p, a in parts:
            if a & want:
                keep.append(p)
                want |= a
                changed = True
            else:
                rest.append((p, a))
        parts = rest
    # conjuncts that are unsatisfiable on their own would make the premise false; keep constant falses
    for p, a in parts:
        if p == Fa:
            return Fa
    return mk_and(keep)


_EQ_RE = re.compile(r"^(.*) == (-?\d+|[A-Za-z_][\w]*(?:::[A-Za-z_]\w*)+)$")
_LT_RE = re.compile(r"^(.*) < (-?\d+)$")


def _theory(names):
    """Arithmetic facts between atoms that a pure truth table ignores: equalities of one term with different
    constants exclude each other; `x < K1` implies `x < K2` for K1 <= K2; `x == c` decides `x < K`."""
    eqs, lts = {}, {}
    for n in names:
        m = _EQ_RE.match(n)
        if m:
            eqs.setdefault(m.group(1), []).append((m.group(2), n))
        m = _LT_RE.match(n)
        if m:
            lts.setdefault(m.group(1), []).append((int(m.group(2)), n))
    excl, mono = [], []
    for lhs, lst in eqs.items():
        for i in range(len(lst)):
            for j in range(i + 1, len(lst)):
                if lst[i][0] != lst[j][0]:
                    excl.append((lst[i][1], lst[j][1]))
        for c, n in lst:
            if re.fullmatch(r"-?\d+", c):
                for k, ln in lts.get(lhs, []):
                    if int(c) < k:
                        mono.append((n, ln))       # x == c and c < K  =>  x < K
                    else:
                        excl.append((n, ln))       # x == c and c >= K =>  !(x < K)
    for lhs, lst in lts.items():
        lst.sort()
        for i in range(len(lst) - 1):
            mono.append((lst[i][1], lst[i + 1][1]))
    return excl, mono


def counterexample(premise, conclusion):
    """An assignment making premise true and conclusion false, or None (premise => conclusion)."""
    premise = _slice(premise, conclusion)
    names = atoms(premise)
    atoms(conclusion, names)
    if len(names) > MAX_ATOMS:
        raise ValueError("too many atoms (%d) for truth-table enumeration" % len(names))
    excl, mono = _theory(names)
    for vals in itertools.product((False, True), repeat=len(names)):
        env = dict(zip(names, vals))
        if any(env[a] and env[b] for a, b in excl) or any(env[a] and not env[b] for a, b in mono):
            continue        # infeasible: x == c1 && x == c2 (c1 != c2), or x < K1 && !(x < K2) with K1 <= K2
        if ev(premise, env) and not ev(conclusion, env):
            return env
    return None


def implies(a, b):
    return counterexample(a, b) is None


def equivalent(a, b):
    return implies(a, b) and implies(b, a)


def fshow(f):
    t = f[0]
    if t == "T":
        return "true"
    if t == "F":
        return "false"
    if t == "atom":
        return f[1]
    if t == "not":
        return "!(%s)" % fshow(f[1])
    if t == "and":
        return "(" + " && ".join(fshow(x) for x in f[1]) + ")"
    if t == "or":
        return "(" + " || ".join(fshow(x) for x in f[1]) + ")"
    return str(f)


# ------------------------------------------------------------------------------------------
# tiny parser for spec formulas over named atoms:  !a && (b || c)

_TOK = re.compile(r"\s*(&&|\|\||!|\(|\)|[A-Za-z_][A-Za-z_0-9]*)")


def parse(text):
    toks = []
    pos = 0
    text = text.strip()
    while pos < len(text):
        m = _TOK.match(text, pos)
        if not m:
            raise ValueError("bad spec formula at %r" % text[pos:])
        toks.append(m.group(1))
        pos = m.end()
    i = 0

    def p_or():
        nonlocal i
        xs = [p_and()]
        while i < len(toks) and toks[i] == "||":
            i += 1
            xs.append(p_and())
        return mk_or(xs)

    def p_and():
        nonlocal i
        xs = [p_un()]
        while i < len(toks) and toks[i] == "&&":
            i += 1
            xs.append(p_un())
        return mk_and(xs)

    def p_un():
        nonlocal i
        if toks[i] == "!":
            i += 1
            return mk_not(p_un())
        if toks[i] == "(":
            i += 1
            f = p_or()
            if toks[i] != ")":
                raise ValueError("missing )")
            i += 1
            return f
        name = toks[i]
        i += 1
        if name == "true":
            return T
        if name == "false":
            return Fa
        return atom(name)

    f = p_or()
    if i != len(toks):
        raise ValueError("trailing tokens in spec formula")
    return f


STALE_RE = re.compile(r"\b([A-Za-z_]\w*)#\w+")


def is_stale_atom(k):
    """The atom mentions an older version of a local (`v#<line>`, see paths.Guard.stale)."""
    return isinstance(k, str) and STALE_RE.search(k) is not None


def strip_stale(k):
    return STALE_RE.sub(lambda m: m.group(1), k)


def unstale(f):
    """f with the version tags removed (old and current values of a local share one atom again). Only for a
    rule that itself checks where the local is overwritten relative to the test and to the effect."""
    return rename(f, {k: (strip_stale(k), True) for k in atoms(f) if is_stale_atom(k)})


def assign(f, k, val):
    """f with atom k replaced by a constant."""
    t = f[0]
    if t == "atom":
        return (T if val else Fa) if f[1] == k else f
    if t == "not":
        return mk_not(assign(f[1], k, val))
    if t == "and":
        return mk_and([assign(x, k, val) for x in f[1]])
    if t == "or":
        return mk_or([assign(x, k, val) for x in f[1]])
    return f


def _drop_irrelevant(q):
    """q without the atoms it does not depend on (truth-table test; left alone when too large)."""
    n = len(atoms(q))
    if n == 0 or n > 14:
        return q
    for k in list(atoms(q)):
        a, b = assign(q, k, True), assign(q, k, False)
        if equivalent(a, b):
            q = a
    return q


def forget(f, ks):
    """Existentially quantify the atoms ks (facts about values that no longer exist at the site). Only the
    top-level conjuncts that mention an atom are merged (the others keep their shape for the cone-of-influence
    slice), and atoms the result no longer depends on (`(old || !c)` says nothing about c) are dropped."""
    for k in ks:
        if k not in atoms(f):
            continue
        if f[0] == "and":
            hit = [p for p in f[1] if k in atoms(p)]
            rest = [p for p in f[1] if k not in atoms(p)]
        else:
            hit, rest = [f], []
        sub = mk_and(hit)
        q = _drop_irrelevant(mk_or([assign(sub, k, True), assign(sub, k, False)]))
        f = mk_and(rest + [q])
    return f


def _match_one(mm, k):
    if isinstance(mm, str):
        return mm == k
    if hasattr(mm, "fullmatch"):
        return mm.fullmatch(k) is not None
    if callable(mm):
        return bool(mm(k))
    return False


def bind_atoms(f, table):
    """Map code atoms to spec atom names.

    table: {spec_name: matcher}; a matcher is an exact key string, a compiled regex (fullmatch),
    a callable(key)->bool, or a tuple (matcher, polarity) when the code atom is the negation of
    the spec atom.  Returns (renamed formula, {code atom: spec name}, [unmatched code atoms]).

    Atoms about an OLDER version of a local (`v#<line>`: the variable was overwritten or redeclared
    between the condition and the site) are matched with the version tag removed only when the formula
    has no current-version twin and no second old version of the same atom (then it is simply a fact
    established earlier, e.g. a check whose out-parameter name was reused later); every other old-version
    atom is existentially quantified away: it constrains a value that no longer exists.
    """
    mapping = {}
    unmatched = []
    ks = atoms(f)
    current = [k for k in ks if not is_stale_atom(k)]
    stale = [k for k in ks if is_stale_atom(k)]

    def lookup(k):
        for name, m in table.items():
            for one in (m if isinstance(m, list) else [m]):
                pol, mm = True, one
                if isinstance(one, tuple):
                    mm, pol = one
                if _match_one(mm, k):
                    return (name, pol)
        return None

    for k in current:
        hit = lookup(k)
        if hit:
            mapping[k] = hit
        else:
            unmatched.append(k)
    gone = []
    stripped = {}
    for k in stale:
        stripped.setdefault(strip_stale(k), []).append(k)
    for k in stale:
        hit = lookup(k)
        if not hit:
            sk = strip_stale(k)
            if sk not in current and len(stripped[sk]) == 1:
                hit = lookup(sk)
        if hit:
            mapping[k] = hit
        else:
            gone.append(k)
    if gone:
        f = forget(f, gone)
        left = atoms(f)
        unmatched = [k for k in unmatched if k in left]
        mapping = {k: v for k, v in mapping.items() if k in left}
    return rename(f, mapping), {k: v[0] for k, v in mapping.items()}, unmatched
