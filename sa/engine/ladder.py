"""LADDER rule (DESIGN §2.1): reject-ladder conformance of a decision function against a spec table.

Core obligation (mode NECESSARY): for every *accepting* exit of the function, its path condition
(the conjunction of dominating conditions, locals substituted by their definitions) implies the
negation of every scalar spec reject condition; every per-element spec condition is enforced by
a complete loop over the named range that precedes the accepting exit and rejects whenever the
spec condition holds.  Mode EXACT additionally requires that every rejecting exit is a spec rung
(same reason/result), rejects only when the spec says so, and that rungs appear in spec order.
All comparisons are truth-table checks over canonical atoms (formula.py).
"""
import re

from . import formula as F
from .facts import AnalysisBroken
from .ir import is_expr, show, subexprs, stmts, callee, match, ANY
from .paths import all_sites, local_defs, always_exits, has_break, ASSIGN_OPS


def index_loops(fn):
    """{index variable: range expr} for counting loops `for (T i = 0; i < R.size(); ++i)` whose body never writes i and
    where the name is not reused for a loop over a different range: such a loop is the same as a range-for over R."""
    out = {}
    bad = set()
    for st in stmts(fn.body):
        if st.get("k") != "for":
            continue
        init, c, inc = st.get("init"), st.get("c"), st.get("inc")
        if not (isinstance(init, dict) and init.get("k") == "decl" and init.get("n") and match(["int", 0], init.get("i"))):
            continue
        i = init["n"]
        okc = is_expr(c) and c[0] == "b" and c[1] == "<" and match(["local", i], c[2]) and is_expr(c[3]) and c[3][0] in ("mcall", "vcall") and \
            len(c[3]) == 3 and c[3][1].endswith("::size")
        oki = is_expr(inc) and inc[0] == "u" and inc[1] in ("++", "post++") and match(["local", i], inc[2])
        written = any(x[0] == "b" and x[1] in ASSIGN_OPS and match(["local", i], x[2]) or (x[0] == "u" and x[1] in ("++", "--", "post++", "post--", "&") and match(["local", i], x[2]))
                      for _, e in ((None, e2) for s2 in stmts(st.get("b")) for _, e2 in __import__("sa.engine.ir", fromlist=["stmt_exprs"]).stmt_exprs(s2)) for x in subexprs(e))
        if not (okc and oki) or written:
            bad.add(i)
            continue
        r = c[3][2]
        if i in out and F.key(out[i]) != F.key(r):
            bad.add(i)
        out[i] = r
    # a name also used by a non-conforming loop (or declared elsewhere) is not normalised
    decls = {}
    for st in stmts(fn.body):
        if st.get("k") == "decl" and st.get("n"):
            decls[st["n"]] = decls.get(st["n"], 0) + 1
    for i in list(out):
        if i in bad:
            del out[i]
    return out


_PAIR_TY = re.compile(r"^(?:const\s+|typename\s+|std::remove_reference<\s*|std::remove_cv<\s*)*(?:std::)?pair<")


def _bind_term(i, init, ty):
    """Structured binding number i of `init`: for a std::pair it is the same term as `.first` / `.second`
    (so `auto& [k, v] : m` and `auto& kv : m` ... kv.second render alike); otherwise bindN(init)."""
    if isinstance(ty, str) and _PAIR_TY.match(ty.strip()) and i in (0, 1):
        return [".", init, "std::pair::first" if i == 0 else "std::pair::second"]
    return ["bind%d" % i, init]


def naming(fn, program=None, allow_overwritten=False):
    """Substitution making atoms independent of most local names: single-definition locals -> their
    initialiser; range-for variables -> each(<range>); structured bindings -> bindN(<init>);
    locals that are written after their declaration keep their own name."""
    subst = dict(local_defs(fn, program, allow_overwritten=allow_overwritten))
    for st in stmts(fn.body):
        if st.get("k") == "foreach" and isinstance(st.get("var"), dict):
            v = st["var"]
            each = ["each", st.get("range")]
            if v.get("binds"):
                for i, b in enumerate(v["binds"]):
                    subst[b] = _bind_term(i, each, v.get("ty"))
            if v.get("n"):
                subst[v["n"]] = each
        if st.get("k") == "decl" and st.get("binds") and is_expr(st.get("i")):
            for i, b in enumerate(st["binds"]):
                subst[b] = _bind_term(i, st["i"], st.get("ty"))
    idx = index_loops(fn)
    if idx:
        subst["@idx"] = idx        # R[i] inside such a loop is rendered each(R) (see formula.expand)
    return subst


def invalid_call(v):
    """(result enum, reason) if v is `<state>.Invalid(<enum>, "reason", ...)` else None."""
    if not is_expr(v):
        return None
    for x in subexprs(v):
        if x[0] in ("mcall", "vcall") and x[1] == "ValidationState::Invalid" and len(x) >= 5:
            res = x[3][1] if is_expr(x[3]) and x[3][0] == "enum" else show(x[3])
            reason = x[4][1] if is_expr(x[4]) and x[4][0] == "str" else show(x[4])
            return res, reason
    return None


class Exit:
    def __init__(self, site, subst):
        self.site = site
        self.stmt = site.stmt
        self.line = site.line
        self.kind = site.stmt.get("k")
        self.value = site.stmt.get("v")
        self.formula = site.formula(subst)
        self.loops = site.loops
        self.guards = site.guards
        self.subst = subst

    def own_formula(self, reject_lines):
        """Guard without the negations contributed by earlier *rejecting* early exits."""
        gs = [g for g in self.guards if g.kind not in ("post", "assert")]
        return F.mk_and([g.formula(self.subst) for g in gs])


def exits(fn, program=None, subst=None):
    subst = naming(fn, program) if subst is None else subst
    out = []
    for s in all_sites(fn, program, "none"):
        if s.expr is None and s.stmt.get("k") in ("ret", "throw"):
            out.append(Exit(s, subst))
    # falling off the end of a void function is an exit too
    if fn.d.get("ret") == "void" and not always_exits(fn.body):
        from .paths import Site
        end = Site(None, {"k": "end", "l": fn.end}, _end_guards(fn, program), [], fn)
        out.append(Exit(end, subst))
    return out


def _end_guards(fn, program):
    # conditions holding at the end of the top-level sequence: every statement completed normally
    from .paths import Guard
    body = fn.body
    g = []
    if body.get("k") != "seq":
        return g
    for st in body.get("s", []):
        g.append(Guard(None, True, st.get("l"), "post", st))
    return g


def loop_range_key(loop, subst=None):
    """Canonical description of what a loop iterates over."""
    k = loop.get("k")
    if k == "foreach":
        return "each(%s)" % F.key(F.expand(loop.get("range"), subst))
    if k == "for":
        init = loop.get("init") or {}
        idx = (subst or {}).get("@idx") or {}
        if isinstance(init, dict) and init.get("n") in idx and is_expr(loop.get("c")) and len(loop["c"]) > 3 and is_expr(loop["c"][3]) and \
                len(loop["c"][3]) == 3 and F.key(loop["c"][3][2]) == F.key(idx[init["n"]]):
            return "each(%s)" % F.key(F.expand(idx[init["n"]], {k2: v for k2, v in (subst or {}).items() if k2 != "@idx"}))
        start = show(init.get("i")) if isinstance(init, dict) and is_expr(init.get("i")) else "?"
        return "for(%s; %s)" % (start, F.fshow(F.to_formula(loop.get("c"), {k2: v for k2, v in (subst or {}).items() if k2 != (init.get("n") if isinstance(init, dict) else None)})) if is_expr(loop.get("c")) else "")
    if k == "while":
        return "while(%s)" % F.fshow(F.to_formula(loop.get("c"), subst))
    return k


class Rung:
    """Spec rung.  cond: spec formula text over named atoms (see formula.parse) ;
    atoms: {name: matcher or (matcher, False)} binding code atoms to spec atom names;
    loop: None for a scalar rung, or a regex on loop_range_key for a per-element rung;
    label: reject reason (or any identifying string); result: expected result enum (optional)."""

    def __init__(self, label, cond, atoms, loop=None, result=None, note="", when="true"):
        self.label, self.cond, self.atoms, self.loop, self.result, self.note = label, cond, atoms, loop, result, note
        self.when = when                      # scalar pre-condition under which a per-element rung applies
        self.spec = F.parse(cond)
        self.spec_when = F.parse(when)
        # EXACT mode compares a rejecting exit's own guard with (when && cond)
        self.spec_full = F.mk_and([self.spec_when, self.spec])


def _bind(formula, table):
    return F.bind_atoms(formula, table)


def check_ladder(ctx, fn, program, rungs, is_accept, is_reject=None, mode="NECESSARY", oid=None, label_of=None,
                 ordered=False, min_accepts=1):
    """Evaluate the LADDER obligations of `fn` against spec `rungs`; records obligations in ctx."""
    oid = oid or fn.q
    subst = naming(fn, program)
    ex = exits(fn, program, subst)
    accepts = [e for e in ex if is_accept(e)]
    if len(accepts) < min_accepts:
        raise AnalysisBroken("%s: no accepting exit recognised (idiom changed?)" % fn.q)
    if label_of is None:
        def label_of(e):
            ic = invalid_call(e.value)
            return ic[1] if ic else None
    rejects = [e for e in ex if (is_reject(e) if is_reject else (not is_accept(e)))]
    reject_lines = set()
    for e in rejects:
        for s in all_sites(fn, program, "none"):
            pass
        break
    # lines of `if` statements whose then-branch is a rejecting exit
    rej_if_lines = _reject_if_lines(fn, rejects)
    for r in rungs:
        table = r.atoms
        if r.loop is None:
            for a in accepts:
                f, mapping, unmatched = _bind(a.formula, table)
                cex = F.counterexample(f, F.mk_not(r.spec))
                ok = cex is None
                ctx.ob("%s/rung:%s/accept@L%s" % (oid, r.label, a.line), "LADDER",
                       "accepting exit of %s at line %s is reached only if NOT (%s) [%s]" % (fn.q, a.line, r.cond, r.label),
                       ok, "%s:%s" % (fn.file, a.line),
                       None if ok else {"accept_path_condition": F.fshow(a.formula), "spec_reject_condition": r.cond,
                                        "atom_binding": mapping, "unbound_code_atoms": unmatched[:12],
                                        "counterexample": {k: v for k, v in cex.items()}})
        else:
            _check_loop_rung(ctx, fn, program, r, accepts, rejects, subst, oid, rej_if_lines)
    if mode == "EXACT":
        labels = [r.label for r in rungs]
        seen_order = []
        for e in rejects:
            lab = label_of(e)
            where = "%s:%s" % (fn.file, e.line)
            if lab not in labels:
                ctx.ob("%s/extra-reject@L%s" % (oid, e.line), "LADDER-EXACT",
                       "every rejecting exit of %s is a spec rung" % fn.q, False, where,
                       {"exit": show(e.value) if is_expr(e.value) else e.kind, "guard": F.fshow(e.formula)})
                continue
            r = rungs[labels.index(lab)]
            if lab not in seen_order:
                seen_order.append(lab)
            own = e.own_formula(rej_if_lines)
            f, mapping, unmatched = _bind(own, r.atoms)
            cex = F.counterexample(f, r.spec_full)
            ok = cex is None
            ctx.ob("%s/exact:%s@L%s" % (oid, lab, e.line), "LADDER-EXACT",
                   "%s rejects with '%s' only when (%s)" % (fn.q, lab, F.fshow(r.spec_full)), ok, where,
                   None if ok else {"own_guard": F.fshow(own), "binding": mapping, "unbound_code_atoms": unmatched[:12], "counterexample": cex})
            if r.result is not None:
                ic = invalid_call(e.value)
                got = ic[0] if ic else None
                ctx.ob("%s/result:%s@L%s" % (oid, lab, e.line), "LADDER-EXACT", "rung '%s' reports %s" % (lab, r.result),
                       got == r.result, where, None if got == r.result else {"got": got})
        for lab in labels:
            if lab not in seen_order:
                ctx.ob("%s/missing:%s" % (oid, lab), "LADDER-EXACT", "spec rung '%s' has a rejecting exit in %s" % (lab, fn.q), False, fn.where)
        if ordered:
            want = [l for l in labels if l in seen_order]
            ctx.ob("%s/order" % oid, "LADDER-EXACT", "rungs of %s appear in spec order %s" % (fn.q, want), seen_order == want, fn.where,
                   None if seen_order == want else {"code_order": seen_order})
    return ex


def _reject_if_lines(fn, rejects):
    lines = set()
    rej_stmt_ids = {id(e.stmt) for e in rejects}
    for st in stmts(fn.body):
        if st.get("k") == "if":
            t = st.get("t")
            inner = [x for x in stmts(t)] if isinstance(t, dict) else []
            if any(id(x) in rej_stmt_ids for x in inner) and always_exits(t):
                lines.add(st.get("l"))
    return lines


def _check_loop_rung(ctx, fn, program, r, accepts, rejects, subst, oid, rej_if_lines):
    """Per-element rung.  (A) some loop L whose range matches r.loop has, in its body, rejecting exits
    whose in-loop guards G1..Gn satisfy  spec cond => G1 || .. || Gn  (the element condition leads to
    a rejection in that iteration); (B) L is left only by completing or rejecting; (C) every accepting
    exit's path condition, together with the rung's scalar pre-condition, implies done(L)."""
    loops = {}
    for e in rejects:
        for lp in e.loops:
            key = loop_range_key(lp, subst)
            if re.fullmatch(r.loop, key):
                loops.setdefault(id(lp), (lp, key, []))[2].append(e)
    where = fn.where
    if not loops:
        ctx.ob("%s/rung:%s" % (oid, r.label), "LADDER", "%s has a rejecting exit inside a loop over %s for [%s]" % (fn.q, r.loop, r.label),
               False, where, {"loops_with_rejects": sorted({loop_range_key(lp, subst) for e in rejects for lp in e.loops})})
        return
    best = None
    for lp, key, es in loops.values():
        lpl = lp.get("l")
        parts = []
        for e in es:
            gs = []
            inside = False
            for g in e.guards:
                if g.kind == "loop" and g.line == lpl:
                    inside = True
                    continue
                if inside or _guard_in(lp, g):
                    inside = True
                    if g.kind != "assert":      # a failed assertion aborts (never accepts): assume it holds
                        gs.append(g)
            parts.append(F.mk_and([g.formula(subst) for g in gs]))
        rej = F.mk_or(parts)
        f, mapping, unmatched = _bind(rej, r.atoms)
        cex = F.counterexample(r.spec, f)   # spec cond => some rejection in this iteration
        res = (cex is None, lp, key, rej, mapping, unmatched, cex, es)
        if best is None or (res[0] and not best[0]):
            best = res
        if res[0]:
            break
    ok, lp, key, rej, mapping, unmatched, cex, es = best
    ctx.ob("%s/rung:%s/elem" % (oid, r.label), "LADDER",
           "inside the loop %s of %s: (%s) => the iteration rejects [%s]" % (key, fn.q, r.cond, r.label), ok, "%s:%s" % (fn.file, es[0].line),
           None if ok else {"in_loop_reject_condition": F.fshow(rej), "spec": r.cond, "binding": mapping, "unbound_code_atoms": unmatched[:12], "counterexample": cex})
    brk = has_break(lp.get("b"))
    ctx.ob("%s/rung:%s/complete" % (oid, r.label), "LADDER", "the loop %s at line %s is left only by completing or rejecting (no break)" % (key, lp.get("l")),
           not brk, "%s:%s" % (fn.file, lp.get("l")))
    done = F.atom("done(loop@%s)" % lp.get("l"))
    for a in accepts:
        f, mapping, unmatched = _bind(a.formula, r.atoms)
        prem = F.mk_and([f, r.spec_when])
        cex = F.counterexample(prem, done)
        ok2 = cex is None
        ctx.ob("%s/rung:%s/before-accept@L%s" % (oid, r.label, a.line), "LADDER",
               "the accepting exit at line %s is reached (when %s) only after the loop %s at line %s completed" % (a.line, r.when, key, lp.get("l")), ok2,
               "%s:%s" % (fn.file, a.line), None if ok2 else {"accept_path_condition": F.fshow(a.formula), "counterexample": cex})


def _guard_in(loop, g):
    end = _max_line(loop)
    return g.line is not None and loop.get("l") <= g.line <= end


def _max_line(s):
    m = s.get("l", 0) or 0
    for x in stmts(s):
        if (x.get("l") or 0) > m:
            m = x.get("l")
    return m


