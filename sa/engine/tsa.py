"""TSA rule (DESIGN §2.9): clang -Wthread-safety on selected units (clang 16: clang 14 skips the
analysis after its first front-end error), plus annotation-presence obligations from bcfacts."""
import json
import os
import re
import shutil
import subprocess
import tempfile
from concurrent.futures import ThreadPoolExecutor

from . import facts
from .facts import AnalysisBroken, VERIF

CLANG16 = shutil.which("clang++-16")


def _vfs_overlay():
    if not facts.OVERLAY:
        return []
    roots = []
    for k, v in facts.OVERLAY.items():
        roots.append({"name": k, "type": "file", "external-contents": v})
    d = tempfile.mkdtemp(prefix="verif_vfs_")
    p = os.path.join(d, "overlay.yaml")
    json.dump({"version": 0, "case-sensitive": "true", "roots": roots}, open(p, "w"))
    return ["-ivfsoverlay", p]


def run_unit(unit):
    if not CLANG16:
        raise AnalysisBroken("clang++-16 not available: thread-safety analysis cannot run")
    unit = facts.unit_path(unit)
    flags = facts.compdb().get(unit)
    if flags is None:
        raise AnalysisBroken("unit %s not in compilation database" % unit)
    cmd = [CLANG16, "-fsyntax-only", "-Wno-everything", "-Wthread-safety", "-ferror-limit=0",
           "-include", os.path.join(VERIF, "shim", "verif_overloaded_guide.h")] + flags + _vfs_overlay() + [unit]
    r = subprocess.run(cmd, capture_output=True, text=True, cwd=facts.BUILD)
    warns = []
    errs = []
    for line in r.stderr.splitlines():
        m = re.match(r"(.+?):(\d+):(\d+): (warning|error): (.*)", line)
        if not m:
            continue
        if m.group(4) == "warning" and "thread-safety" in m.group(5):
            warns.append({"file": m.group(1), "line": int(m.group(2)), "msg": m.group(5)})
        elif m.group(4) == "error":
            errs.append({"file": m.group(1), "line": int(m.group(2)), "msg": m.group(5)})
    return warns, errs


def check_units(ctx, units, oid="tsa"):
    with ThreadPoolExecutor(max_workers=facts.JOBS) as ex:
        res = list(ex.map(run_unit, units))
    for u, (warns, errs) in zip(units, res):
        ctx.units.add("src/" + u if not u.startswith("/") else u)
        if errs:
            raise AnalysisBroken("clang-16 front-end errors in %s: %s" % (u, errs[:2]))
        ctx.ob("%s/%s" % (oid, u), "TSA", "clang -Wthread-safety reports nothing in %s (every access to GUARDED_BY state holds its mutex; "
               "EXCLUSIVE_LOCKS_REQUIRED/LOCKS_EXCLUDED contracts hold at every call)" % u, not warns, "src/" + u,
               None if not warns else warns[:5])
    return res


def guarded_by(ctx, P, rec, field, mutex, oid=None):
    """Annotation presence: record field `rec::field` carries GUARDED_BY(<mutex>) (or PT_GUARDED_BY)."""
    f = P.field(rec, field)
    attrs = " ".join(f.get("attrs", []))
    ok = re.search(r"guarded_by\(\s*(this->)?%s\s*\)" % re.escape(mutex), attrs) is not None
    ctx.ob((oid or "guarded") + "/%s::%s" % (rec, field), "TSA-ANNOT", "%s::%s is declared GUARDED_BY(%s)" % (rec, field, mutex), ok,
           "%s:%s" % (P.record(rec)["file"], f.get("l")), None if ok else {"attrs": f.get("attrs", [])})
    return ok


def fn_requires(ctx, fn, pattern, oid=None, text=None):
    attrs = " ".join(fn.attrs)
    ok = re.search(pattern, attrs) is not None
    ctx.ob((oid or "requires") + "/" + fn.q, "TSA-ANNOT", text or ("%s carries thread-safety contract /%s/" % (fn.q, pattern)), ok, fn.where,
           None if ok else {"attrs": fn.attrs})
    return ok
