"""N/A reasons and the shared trusted-base text.  Each claimed property carries its own CLAIM dict in
sa/rules/<id>.py; tools/gen_manifest.py assembles MANIFEST.json from both."""

TRUST = ("Trusted base: clang-14 front end and the analysis-only shims in /verif/shim (source_location, consteval->constexpr, "
         "Overloaded deduction guide, btcsignals typename, range-pipe rewrite), the bcfacts extractor, the guard normaliser "
         "(truth tables over canonical atoms), and the hand-written spec tables (from the property text and the BIPs). ")

NOT_APPLICABLE = {
    "C24": "feerate-diagram optimality / never-worse is a property of algorithm output over all graphs; no structural necessary condition short of re-proving the algorithm",
    "C25": "reference-model equivalence over operation sequences (runtime SanityCheck is its guard); not a shape-of-code fact",
    "C40": "optimality/sufficiency of search algorithms over all pools (algorithmic, value-level)",
    "C45": "parser/printer inverse and checksum-distance properties (algorithmic)",
    "C49": "numeric functions vs standards (hash/cipher outputs)",
    "C50": "numeric/algebraic (curve arithmetic)",
    "C61": "reference-model equivalence of containers/allocators",
}
