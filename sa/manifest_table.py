"""Per-property MANIFEST data (claims, technique, level notes, N/A reasons).  tools/gen_manifest.py
turns this into MANIFEST.json; a property appears under `checks` only when sa/rules/<id>.py exists."""

TRUST = ("Trusted base: clang-14 front end and the analysis-only shims in /verif/shim (source_location, consteval->constexpr, "
         "Overloaded deduction guide, btcsignals typename, range-pipe rewrite), the bcfacts extractor, the guard normaliser "
         "(truth tables over canonical atoms), and the hand-written spec tables (from the property text and the BIPs). ")

CLAIMS = {
    "C03": dict(
        technique="static analysis: LADDER (EXACT) reject-ladder conformance by truth tables over canonical guard atoms + predicate twins + constants",
        text="Decides, for all inputs, the decision structure of CheckTransaction: every accepting path excludes each of the nine spec "
             "reject conditions (per-element ones via complete loops), every rejection is a spec rung with its reason/result and fires only "
             "under its spec condition, in spec order; MoneyRange/IsCoinBase/IsNull equal their definitions. A unit test samples inputs; "
             "this quantifies over all paths.",
        note="Not decided: GetSerializeSize arithmetic, std::set semantics (opaque atoms). " + TRUST,
        ref="DESIGN.md §3 C03"),
}

NOT_APPLICABLE = {
    "C24": "feerate-diagram optimality / never-worse is a property of algorithm output over all graphs; no structural necessary condition short of re-proving the algorithm",
    "C25": "reference-model equivalence over operation sequences (runtime SanityCheck is its guard); not a shape-of-code fact",
    "C30": "exactness of 128-bit products/divisions and diagram comparison for all values is numeric",
    "C34": "equivalence with an announcement-level reference model over interleavings; multi-index state machine, dynamic SanityCheck",
    "C35": "reference-model / eviction-fairness property over operation sequences",
    "C37": "invariant over operation sequences of a hashed bucket structure; dynamic CheckAddrman",
    "C40": "optimality/sufficiency of search algorithms over all pools (algorithmic, value-level)",
    "C41": "end-to-end numeric property (fees vs size, change) of transaction creation",
    "C43": "crash-point / SQLite atomicity and reload equality are runtime storage properties",
    "C44": "equality with recomputation over histories (value-level)",
    "C45": "parser/printer inverse and checksum-distance properties (algorithmic)",
    "C46": "depends on miniscript satisfier semantics over all expressions",
    "C47": "content equality after re-encode/merge (data semantics)",
    "C49": "numeric functions vs standards (hash/cipher outputs)",
    "C50": "numeric/algebraic (curve arithmetic)",
    "C51": "algorithmic no-false-negative properties of probabilistic filters",
    "C54": "skip-list/ancestor correctness and 256-bit work arithmetic are algorithmic/numeric",
    "C56": "end-to-end wallet/mempool numeric property",
    "C60": "bit-level matching/parsing and ban-list semantics over sequences",
    "C61": "reference-model equivalence of containers/allocators",
}
