#!/usr/bin/env python3
"""Self-test of the checkers (both directions).  Each mutation in selftest/mutations.json is a
realistic one-line breakage that still compiles; it is applied to a *copy of one file* outside
/repo and /verif and analysed through a virtual-file overlay (nothing under /repo is touched).
The named check must exit 1 with a VIOLATION line; on the unmodified tree it must exit 0.
usage: selftest/run.py [Cnn ...] [--id <mutation id>]"""
import json
import os
import shutil
import subprocess
import sys
import tempfile

VERIF = os.path.dirname(os.path.dirname(os.path.abspath(__file__)))
REPO = "/repo"


def main():
    args = sys.argv[1:]
    only_id = None
    if "--id" in args:
        only_id = args[args.index("--id") + 1]
        args = [a for a in args if a not in ("--id", only_id)]
    results = run_mutations(args, only_id, verbose=True)
    fails = [r for r in results if not r["ok"]]
    print("selftest: %d mutations, %d failures" % (len(results), len(fails)))
    return 1 if fails else 0


def run_mutations(args, only_id=None, verbose=False):
    results = []
    muts = []
    mdir = os.path.join(VERIF, "selftest", "mutations")
    for fn in sorted(os.listdir(mdir)):
        if fn.endswith(".json"):
            muts.extend(json.load(open(os.path.join(mdir, fn))))
    fails = 0
    n = 0
    for m in muts:
        if args and m["property"] not in args:
            continue
        if only_id and m["id"] != only_id:
            continue
        n += 1
        tmp = tempfile.mkdtemp(prefix="verif_selftest_")
        try:
            overlay = {}
            texts = {}
            for ed in m["edits"]:
                src = os.path.join(REPO, ed["file"])
                text = texts.get(src) or open(src).read()
                if text.count(ed["find"]) != 1:
                    if verbose:
                        print("SELFTEST-BROKEN %s: pattern occurs %d times in %s" % (m["id"], text.count(ed["find"]), ed["file"]))
                    fails += 1
                    results.append({"id": m["id"], "ok": False, "status": "pattern-not-applicable"})
                    overlay = None
                    break
                dst = os.path.join(tmp, ed["file"].replace("/", "__"))
                texts[src] = text.replace(ed["find"], ed["replace"])
                open(dst, "w").write(texts[src])
                overlay[src] = dst
            if overlay is None:
                continue
            ov = os.path.join(tmp, "overlay.json")
            json.dump(overlay, open(ov, "w"))
            env = dict(os.environ, VERIF_OVERLAY=ov, VERIF_EVIDENCE_DIR=os.path.join(tmp, "evidence"))
            r = subprocess.run([os.path.join(VERIF, "check"), m["property"]], capture_output=True, text=True, env=env)
            hit = r.returncode == 1 and "VIOLATION property=%s" % m["property"] in r.stdout
            want = m.get("expect", "violation")
            ok = hit if want == "violation" else (r.returncode == 0)
            first = (r.stdout.strip().splitlines() or [""])[1 if hit and len(r.stdout.strip().splitlines()) > 1 else 0][:150]
            results.append({"id": m["id"], "ok": ok, "status": "caught" if hit else ("silent" if r.returncode == 0 else "exit%d" % r.returncode), "expect": want, "report": first.strip()})
            if verbose:
                print("%s %-8s %-40s exit=%d %s" % ("ok  " if ok else "FAIL", m["property"], m["id"], r.returncode, first))
            if not ok:
                fails += 1
                if verbose:
                    print(r.stdout[-1500:], r.stderr[-1500:])
        finally:
            shutil.rmtree(tmp, ignore_errors=True)
    return results


if __name__ == "__main__":
    sys.exit(main())
