#!/usr/bin/env python3
"""Self-test of the checkers (both directions).  Each mutation in selftest/mutations.json is a
realistic one-line breakage that still compiles; it is applied to a *copy of one file* outside
/repo and /verif and analysed through a virtual-file overlay (nothing under /repo is touched).
The named check must exit 1 with a VIOLATION line; on the unmodified tree it must exit 0.
usage: selftest/run.py [Cnn ...] [--id <mutation id>]"""
import json
import os
import shutil
import subprocess
import sys
import tempfile

VERIF = os.path.dirname(os.path.dirname(os.path.abspath(__file__)))
REPO = "/repo"


def main():
    args = sys.argv[1:]
    only_id = None
    if "--id" in args:
        only_id = args[args.index("--id") + 1]
        args = [a for a in args if a not in ("--id", only_id)]
    muts = []
    mdir = os.path.join(VERIF, "selftest", "mutations")
    for fn in sorted(os.listdir(mdir)):
        if fn.endswith(".json"):
            muts.extend(json.load(open(os.path.join(mdir, fn))))
    fails = 0
    n = 0
    for m in muts:
        if args and m["property"] not in args:
            continue
        if only_id and m["id"] != only_id:
            continue
        n += 1
        tmp = tempfile.mkdtemp(prefix="verif_selftest_")
        try:
            overlay = {}
            texts = {}
            for ed in m["edits"]:
                src = os.path.join(REPO, ed["file"])
                text = texts.get(src) or open(src).read()
                if text.count(ed["find"]) != 1:
                    print("SELFTEST-BROKEN %s: pattern occurs %d times in %s" % (m["id"], text.count(ed["find"]), ed["file"]))
                    fails += 1
                    overlay = None
                    break
                dst = os.path.join(tmp, ed["file"].replace("/", "__"))
                texts[src] = text.replace(ed["find"], ed["replace"])
                open(dst, "w").write(texts[src])
                overlay[src] = dst
            if overlay is None:
                continue
            ov = os.path.join(tmp, "overlay.json")
            json.dump(overlay, open(ov, "w"))
            env = dict(os.environ, VERIF_OVERLAY=ov, VERIF_EVIDENCE_DIR=os.path.join(tmp, "evidence"))
            r = subprocess.run([os.path.join(VERIF, "check"), m["property"]], capture_output=True, text=True, env=env)
            hit = r.returncode == 1 and "VIOLATION property=%s" % m["property"] in r.stdout
            want = m.get("expect", "violation")
            ok = hit if want == "violation" else (r.returncode == 0)
            print("%s %-8s %-40s exit=%d %s" % ("ok  " if ok else "FAIL", m["property"], m["id"], r.returncode,
                                               (r.stdout.strip().splitlines() or [""])[1 if hit and len(r.stdout.strip().splitlines()) > 1 else 0][:150]))
            if not ok:
                fails += 1
                print(r.stdout[-1500:], r.stderr[-1500:])
        finally:
            shutil.rmtree(tmp, ignore_errors=True)
    print("selftest: %d mutations, %d failures" % (n, fails))
    return 1 if fails else 0


if __name__ == "__main__":
    sys.exit(main())
