#!/usr/bin/env python3
"""Unit tests of the engine's path conditions on hand-written statement trees (no repo code involved):
variable versions (a condition evaluated before `v = ..` says nothing about v afterwards), post-conditions,
single-definition substitution, old-version handling in bind_atoms.  Exit 0 iff all pass."""
import os
import sys

sys.path.insert(0, os.path.dirname(os.path.dirname(os.path.abspath(__file__))))
os.environ.setdefault("VERIF_VERSIONING", "1")

from sa.engine import formula as F                      # noqa: E402
from sa.engine.ir import Function                       # noqa: E402
from sa.engine.paths import all_sites, local_defs, post_formula   # noqa: E402
from sa.engine.ladder import naming                     # noqa: E402

L = lambda n: ["local", n]
CALL = lambda q, *a: ["call", q] + list(a)
NOT = lambda x: ["u", "!", x]
ASG = lambda v, e: ["b", "=", L(v), e]
EX = lambda e, l: {"k": "expr", "e": e, "l": l}
RET = lambda l: {"k": "ret", "l": l}
SEQ = lambda *s: {"k": "seq", "s": list(s), "l": s[0]["l"] if s else 0}
IF = lambda c, t, l, e=None: {"k": "if", "c": c, "t": t, "e": e, "l": l}
DECL = lambda n, ty, i, l: {"k": "decl", "n": n, "ty": ty, "i": i, "l": l}


def fn(body):
    return Function({"q": "t", "file": "t.cpp", "l": 1, "end": 99, "params": [], "body": body}, None)


def site_formula(f, callee_q, subst=None):
    ss = [s for s in all_sites(f) if s.expr is not None and s.expr[0] == "call" and s.expr[1] == callee_q]
    assert len(ss) == 1, (callee_q, len(ss))
    return ss[0].formula(subst)


fails = []


def check(name, ok, info=None):
    print(("ok   " if ok else "FAIL ") + name + ("" if ok else "  %s" % (info,)))
    if not ok:
        fails.append(name)


# 1. a reused result flag: the second call's result is NOT known to be true at the effect
f = fn(SEQ(DECL("ok", "bool", CALL("A"), 2),
           IF(NOT(L("ok")), RET(3), 3),
           EX(ASG("ok", CALL("B")), 4),
           EX(CALL("effect"), 5),
           IF(NOT(L("ok")), RET(6), 6),
           EX(CALL("after"), 7)))
fm = site_formula(f, "effect")
check("reused-flag: effect before the second test is not guarded by the current flag", not F.implies(fm, F.atom("ok")), F.fshow(fm))
check("reused-flag: the first test survives as an old-version fact", any(F.is_stale_atom(k) for k in F.atoms(fm)), F.fshow(fm))
fm2 = site_formula(f, "after")
check("reused-flag: after the second test the current flag holds", F.implies(fm2, F.atom("ok")), F.fshow(fm2))

# 2. a cursor that is looked up again inside the branch that found nothing
END = CALL("end")
EQ = lambda a, b: ["b", "==", a, b]
f = fn(SEQ(DECL("it", "Iter", CALL("find1"), 2),
           IF(EQ(L("it"), END),
              SEQ(EX(ASG("it", CALL("find2")), 4),
                  IF(EQ(L("it"), END), RET(5), 5)), 3),
           EX(CALL("use"), 7)))
fm = site_formula(f, "use")
cur = [k for k in F.atoms(fm) if not F.is_stale_atom(k)]
check("relookup: at the use the CURRENT cursor is known valid", len(cur) == 1 and F.implies(fm, F.mk_not(F.atom(cur[0]))), F.fshow(fm))

# 3. loop-carried: a test before the loop says nothing inside a loop that moves the variable
f = fn(SEQ(IF(NOT(CALL("good", L("p"))), RET(2), 2),
           {"k": "while", "c": L("p"), "l": 3, "b": SEQ(EX(CALL("visit", L("p")), 4), EX(ASG("p", CALL("next", L("p"))), 5))},
           EX(CALL("tail", L("p")), 6)))
fm = site_formula(f, "visit")
check("loop-carried: pre-loop test is an old-version fact inside the loop", not F.implies(fm, F.atom("good(p)")), F.fshow(fm))
fm = site_formula(f, "tail")
check("loop-carried: ... and after the loop", not F.implies(fm, F.atom("good(p)")), F.fshow(fm))

# 4. a local initialised from a buffer that is advanced afterwards keeps its own name
f = fn(SEQ(DECL("b", "uint8_t", ["idx", L("c"), ["int", 0]], 2),
           EX(ASG("c", CALL("sub", L("c"))), 3),
           IF(L("b"), EX(CALL("short_id"), 4), 4)))
check("advance: `b = c[0]; c = sub(c)` does not substitute b", "b" not in local_defs(f) and "b" in local_defs(f, allow_overwritten=True))
fm = site_formula(f, "short_id", naming(f))
check("advance: the guard reads b, not the new c[0]", F.fshow(fm) == "b", F.fshow(fm))

# 5. clamp: `if (v < lo) v = lo;` leaves no constraint behind once old versions are forgotten
LT = lambda a, b: ["b", "<", a, b]
f = fn(SEQ(IF(LT(L("v"), L("lo")), EX(ASG("v", L("lo")), 2), 2),
           EX(CALL("done"), 3)))
fm = site_formula(f, "done")
fb, mp, un = F.bind_atoms(fm, {})
check("clamp: post-condition of a conditional overwrite is vacuous after forgetting the old value", fb == F.T and not un, (F.fshow(fm), F.fshow(fb), un))

# 6. bind_atoms: an old-version atom binds with the tag removed only if it has no current twin
one = F.mk_and([F.atom("Check(x, st#12)"), F.atom("y")])
fb, mp, un = F.bind_atoms(one, {"CHK": "Check(x, st)"})
check("bind: lone old-version atom binds to the spec name", "CHK" in mp.values())
two = F.mk_and([F.atom("n#8 < 6"), F.mk_not(F.atom("n < 6"))])
fb, mp, un = F.bind_atoms(two, {"SMALL": "n < 6"})
check("bind: with a current twin the old version is forgotten, not conflated", F.equivalent(fb, F.mk_not(F.atom("SMALL"))), F.fshow(fb))

# 7. post-condition of if/else with early exit (unchanged behaviour)
st = IF(L("c"), RET(2), 2)
check("post: after `if (c) return;` c is false", F.equivalent(post_formula(st), F.mk_not(F.atom("c"))))

# 8. structured binding of a pair is .first/.second
f = fn(SEQ({"k": "foreach", "l": 2, "range": L("m"), "var": {"n": "", "binds": ["k", "v"], "ty": "const std::pair<const int, Info> &"},
            "b": SEQ(IF(LT([".", L("v"), "Info::h"], L("lim")), EX(CALL("hit"), 3), 3))}))
fm = site_formula(f, "hit", naming(f))
check("pair binding: `auto& [k, v] : m` reads like `kv.second`", F.fshow(fm) == "each(m).second.h < lim", F.fshow(fm))

# 9. a search loop moved into a local predicate lambda analyses like the inline loop
from sa.engine.ir import inline_predicate_ifs          # noqa: E402


class FakeProgram:
    def __init__(self, fns_):
        self.funcs = {f_.q: [f_] for f_ in fns_}


lam = Function({"q": "t::lambda@2:10", "file": "t.cpp", "l": 2, "end": 6, "params": [{"n": "x", "ty": "const T &"}],
                "body": SEQ({"k": "foreach", "l": 3, "range": [".", ["param", "x"], "T::items"], "var": {"n": "it", "ty": "const I &"},
                             "b": SEQ(IF(CALL("bad", L("it")), {"k": "ret", "l": 4, "v": ["bool", True]}, 4))},
                            {"k": "ret", "l": 5, "v": ["bool", False]})}, None)
outer = fn(SEQ(DECL("pred", "const auto", ["lambda", "t::lambda@2:10"], 2),
               {"k": "foreach", "l": 7, "range": L("all"), "var": {"n": "e", "ty": "const T &"},
                "b": SEQ(IF(["opcall", "()", "t::lambda@2:10", L("pred"), L("e")], {"k": "ret", "l": 8, "v": ["bool", False]}, 8))},
               {"k": "ret", "l": 9, "v": ["bool", True]}))
inline_predicate_ifs(outer, FakeProgram([lam, outer]))
rets = [s_ for s_ in all_sites(outer) if s_.expr is None and s_.stmt.get("k") == "ret" and s_.stmt.get("l") == 8]
check("predicate lambda: the rejecting return sits inside both loops under the inner test",
      len(rets) == 1 and len(rets[0].loops) == 2 and F.fshow(rets[0].formula(naming(outer))) == "bad(each(each(all).items))",
      [(len(r.loops), F.fshow(r.formula(naming(outer)))) for r in rets])

print("engine tests: %d failures" % len(fails))
sys.exit(1 if fails else 0)
