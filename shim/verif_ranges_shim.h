// Analysis-only shim: clang 14 cannot instantiate libstdc++-12's `range | std::views::X`.
// The fact extractor rewrites `R | std::views::X(args)` (in an in-memory copy of the unit, line
// numbers preserved) to `::verif_shim::v_X(R, args)`; these minimal views keep the statement in
// the AST so that the loop body / call is analysed. Never part of the repo build.
#ifndef VERIF_SHIM_RANGES
#define VERIF_SHIM_RANGES
#include <cstddef>
#include <iterator>
#include <utility>
namespace verif_shim {
template <class R> struct RevView {
    R& r;
    auto begin() const { return std::rbegin(r); }
    auto end() const { return std::rend(r); }
};
template <class R> RevView<R> v_reverse(R& r) { return {r}; }

template <class R> struct DropView {
    R& r; std::size_t n;
    auto begin() const { auto it = std::begin(r); for (std::size_t i = 0; i < n && it != std::end(r); ++i) ++it; return it; }
    auto end() const { return std::end(r); }
};
template <class R> DropView<R> v_drop(R& r, std::size_t n) { return {r, n}; }

template <class It> struct KeyIt {
    using iterator_category = std::forward_iterator_tag;
    using value_type = std::remove_cv_t<std::remove_reference_t<decltype(std::declval<It>()->first)>>;
    using difference_type = std::ptrdiff_t;
    using pointer = const value_type*;
    using reference = const value_type&;
    It it;
    reference operator*() const { return it->first; }
    KeyIt& operator++() { ++it; return *this; }
    KeyIt operator++(int) { KeyIt t = *this; ++it; return t; }
    bool operator==(const KeyIt& o) const { return it == o.it; }
    bool operator!=(const KeyIt& o) const { return it != o.it; }
};
template <class R> struct KeysView {
    R& r;
    auto begin() const { return KeyIt<decltype(std::begin(r))>{std::begin(r)}; }
    auto end() const { return KeyIt<decltype(std::end(r))>{std::end(r)}; }
};
template <class R> KeysView<R> v_keys(R& r) { return {r}; }

template <class It, class P> struct FilterIt {
    using iterator_category = std::forward_iterator_tag;
    using value_type = typename std::iterator_traits<It>::value_type;
    using difference_type = std::ptrdiff_t;
    using pointer = typename std::iterator_traits<It>::pointer;
    using reference = typename std::iterator_traits<It>::reference;
    It it{}; It last{}; const P* pred{nullptr};
    void skip() { while (it != last && !(*pred)(*it)) ++it; }
    reference operator*() const { return *it; }
    FilterIt& operator++() { ++it; skip(); return *this; }
    FilterIt operator++(int) { FilterIt t = *this; ++*this; return t; }
    bool operator==(const FilterIt& o) const { return it == o.it; }
    bool operator!=(const FilterIt& o) const { return it != o.it; }
};
template <class R, class P> struct FilterView {
    R& r; P pred;
    auto begin() { FilterIt<decltype(std::begin(r)), P> i{std::begin(r), std::end(r), &pred}; i.skip(); return i; }
    auto end() { return FilterIt<decltype(std::begin(r)), P>{std::end(r), std::end(r), &pred}; }
};
template <class R, class P> FilterView<R, P> v_filter(R& r, P p) { return {r, std::move(p)}; }
} // namespace verif_shim
#endif
