// Analysis-only shim: explicit deduction guide for util::Overloaded (aggregate CTAD is not
// implemented by clang 14/16). Included with -include; never part of the repo build.
#ifndef VERIF_SHIM_OVERLOADED_GUIDE
#define VERIF_SHIM_OVERLOADED_GUIDE
#include <util/overloaded.h>
namespace util { template<class... Ts> Overloaded(Ts...) -> Overloaded<Ts...>; }
#endif
